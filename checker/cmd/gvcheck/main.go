// gvcheck decides the gontainer properties C01..C20 by static analysis of /repo.
package main

import (
	"flag"
	"fmt"
	"os"
	"runtime/debug"
	"strconv"
	"strings"

	"gverif/internal/load"
	"gverif/internal/report"
	"gverif/internal/rules"
)

func main() {
	prop := flag.String("prop", "", "property id (C01..C20)")
	tier := flag.String("tier", "quick", "quick|thorough")
	repo := flag.String("repo", "/repo", "repository under analysis")
	verif := flag.String("verif", "/verif", "verification directory (fixtures, known findings; evidence and replay unless -out is given)")
	out := flag.String("out", "", "directory for evidence/ and replay/ (default: the -verif directory)")
	sweep := flag.String("sweep", "", "development aid: comma-separated property ids; loads the tree once, runs them in order into -out and stops at the first that fails")
	flag.Parse()
	if *sweep != "" {
		os.Exit(runSweep(strings.Split(*sweep, ","), *tier, *repo, *verif, *out))
	}
	if t := os.Getenv("VERIF_TIER"); t == "quick" || t == "thorough" {
		if !isFlagSet("tier") {
			*tier = t
		}
	}
	outDir := *verif
	if *out != "" {
		outDir = *out
	}
	r := report.New(*prop, *tier, outDir)
	r.FindingsDir = *verif
	if s, err := strconv.ParseInt(os.Getenv("VERIF_SEED"), 10, 64); err == nil {
		r.Seed = s
	}
	code := run(*prop, *tier, *repo, *verif, r)
	os.Exit(code)
}

// runSweep: used by scripts/mutation_stage2.sh only (never by a registered command).
func runSweep(props []string, tier, repo, verif, out string) int {
	if out == "" {
		fmt.Fprintln(os.Stderr, "-sweep needs -out (it must not write /verif/evidence)")
		return 2
	}
	p, err := load.Load(repo, true, load.RepoExtra...)
	if err != nil {
		fmt.Println("FIRST-FAIL load")
		return 1
	}
	p.UseBaseline(verif + "/anchors.json")
	load.Current = p
	for _, prop := range props {
		rules.ResetCaches()
		r := report.New(prop, tier, out)
		r.FindingsDir = verif
		code := func() (code int) {
			defer func() {
				if x := recover(); x != nil {
					code = 1
				}
			}()
			e := &rules.Env{P: p, R: r, Tier: tier, Verif: verif}
			if !rules.Run(prop, e) {
				return 2
			}
			return r.Finish()
		}()
		if code != 0 {
			fmt.Println("FIRST-FAIL " + prop)
			return 1
		}
	}
	fmt.Println("ALL-PASS")
	return 0
}

func isFlagSet(name string) bool {
	set := false
	flag.Visit(func(f *flag.Flag) {
		if f.Name == name {
			set = true
		}
	})
	return set
}

func run(prop, tier, repo, verif string, r *report.Ctx) (code int) {
	defer func() {
		if x := recover(); x != nil {
			r.Undecide("checker", "panic", fmt.Sprintf("checker panicked: %v\n%s", x, debug.Stack()))
			code = r.Finish()
			if code == 0 {
				code = 1
			}
		}
	}()
	p, err := load.Load(repo, true, load.RepoExtra...)
	if err != nil {
		r.Undecide("L", "load", "repository does not load / type-check: "+err.Error())
		return r.Finish()
	}
	if os.Getenv("GV_WRITE_BASELINE") != "" {
		// development aid: (re)write the anchor baseline from the tree under analysis
		if err := p.WriteBaseline(verif + "/anchors.json"); err != nil {
			fmt.Fprintln(os.Stderr, err)
			return 2
		}
		return 0
	}
	p.UseBaseline(verif + "/anchors.json")
	load.Current = p
	e := &rules.Env{P: p, R: r, Tier: tier, Verif: verif}
	if !rules.Run(prop, e) {
		fmt.Fprintf(os.Stderr, "unknown property %q; known: %v\n", prop, rules.Props())
		return 2
	}
	if len(p.Renamed) > 0 {
		r.Analysed["anchors_recovered_after_rename"] = p.Renamed
	}
	return r.Finish()
}
